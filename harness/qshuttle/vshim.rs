//! Shim between the copied quandary source (src-gen/) and shuttle.
//!
//! `crate::vshim::sync`, `::thread` and `::time` stand in for `std::sync`,
//! `std::thread` and `std::time` in src/thread.rs, src/server/mod.rs and
//! src/server/rrl.rs.  Everything that can block or interleave goes through
//! shuttle, so the scheduler owns the schedule.  Two things shuttle does not
//! provide are added here:
//!
//! * **condition-variable timeouts that really fire.**  shuttle's
//!   `Condvar::wait_timeout` never times out.  Here every waiter parks on a
//!   private (mutex, condvar) pair and is queued on the condition variable;
//!   `notify_*` pops waiters; a `wait_timeout` additionally registers the
//!   waiter with a *timer thread* that runs inside the same shuttle execution.
//!   Whenever the scheduler picks the timer thread it expires one registered
//!   waiter: the waiter leaves the queue (from now on no notification can
//!   reach it — this is the kernel timing the futex wait out), is marked
//!   timed-out and made runnable; when it re-acquires the user's mutex is again
//!   up to the scheduler.  A timeout can therefore fire at any scheduling
//!   point, e.g. between "a submitter counted the worker as available" and
//!   "the worker re-acquires the lock".
//! * **a logical clock** behind `Instant`, advanced only when a timeout fires
//!   (to the waiter's deadline), so nothing depends on wall-clock time.
//!
//! Bookkeeping that is not part of the modelled behaviour (waiter queues, the
//! per-execution context) sits behind plain `std` cells: shuttle runs all
//! threads of an execution as coroutines on one OS thread and these sections
//! contain no scheduling point, so they are atomic with respect to the
//! schedule.
#![allow(dead_code)]

use std::cell::RefCell;
use std::collections::VecDeque;
use std::time::Duration as StdDuration;

////////////////////////////////////////////////////////////////////////
// PER-EXECUTION CONTEXT                                              //
////////////////////////////////////////////////////////////////////////

pub mod exec {
    use super::*;
    use std::sync::Arc;

    pub(super) struct TimedWaiter {
        pub waiter: Arc<super::sync::Waiter>,
        pub cv: Arc<super::sync::CvInner>,
        pub deadline: StdDuration,
    }

    pub(super) struct Gate {
        pub m: shuttle::sync::Mutex<()>,
        pub cv: shuttle::sync::Condvar,
    }

    /// What happened in one execution (read by the harness at its end).
    #[derive(Clone, Debug, Default)]
    pub struct Summary {
        pub waits: u64,
        pub timed_waits: u64,
        pub timeouts_fired: u64,
        /// timeouts that fired while the harness's probe returned true
        pub timeouts_fired_probe: u64,
        /// timeouts registered but cancelled by a notification
        pub timeouts_cancelled: u64,
        pub notifications_delivered: u64,
        pub notifications_to_nobody: u64,
        pub spawns: u64,
        pub spawns_failed: u64,
        pub clock_advanced_ns: u128,
    }

    pub(super) struct Ctx {
        pub now: StdDuration,
        pub timed: Vec<TimedWaiter>,
        pub gate: Option<Arc<Gate>>,
        pub stop: bool,
        pub fail_spawns: Vec<u64>,
        pub probe: Option<Arc<dyn Fn() -> bool + Send + Sync>>,
        pub summary: Summary,
    }

    /// The logical clock starts far from zero so that subtracting works.
    pub(super) const EPOCH: StdDuration = StdDuration::from_secs(1_000_000_000);

    impl Ctx {
        fn fresh() -> Ctx {
            Ctx {
                now: EPOCH,
                timed: Vec::new(),
                gate: None,
                stop: false,
                fail_spawns: Vec::new(),
                probe: None,
                summary: Summary::default(),
            }
        }
    }

    thread_local! {
        pub(super) static CTX: RefCell<Ctx> = RefCell::new(Ctx::fresh());
    }

    pub(super) fn with<R>(f: impl FnOnce(&mut Ctx) -> R) -> R {
        CTX.with(|c| f(&mut c.borrow_mut()))
    }

    /// Must be called at the start of every shuttle execution.
    /// `fail_spawns`: 0-based indices of the thread spawns (through the shim's
    /// `thread::Builder`) that fail with an I/O error.
    pub fn begin(fail_spawns: Vec<u64>) {
        with(|c| {
            *c = Ctx::fresh();
            c.fail_spawns = fail_spawns;
        });
    }

    /// The harness may install a predicate evaluated whenever a timeout fires
    /// (used for the non-triviality statistics only).
    pub fn set_probe(p: Arc<dyn Fn() -> bool + Send + Sync>) {
        with(|c| c.probe = Some(p));
    }

    pub fn summary() -> Summary {
        with(|c| c.summary.clone())
    }

    /// Advances the logical clock (used by harnesses that want time to pass
    /// at a point of their choosing).
    pub fn advance_clock(d: StdDuration) {
        with(|c| {
            c.now += d;
            c.summary.clock_advanced_ns += d.as_nanos();
        });
    }

    /// Starts the timer thread of this execution.
    pub fn start_timer() -> shuttle::thread::JoinHandle<()> {
        let gate = Arc::new(Gate {
            m: shuttle::sync::Mutex::new(()),
            cv: shuttle::sync::Condvar::new(),
        });
        with(|c| c.gate = Some(gate.clone()));
        shuttle::thread::Builder::new()
            .name("vshim timer".to_string())
            .spawn(move || timer_loop(gate))
            .expect("spawn timer")
    }

    /// Asks the timer thread to exit (join the handle afterwards).
    pub fn stop_timer() {
        let gate = with(|c| {
            c.stop = true;
            c.gate.clone()
        });
        if let Some(g) = gate {
            let _guard = g.m.lock().unwrap();
            g.cv.notify_all();
        }
    }

    pub(super) fn register_timed(w: TimedWaiter) {
        let gate = with(|c| {
            c.timed.push(w);
            c.summary.timed_waits += 1;
            c.gate.clone()
        });
        if let Some(g) = gate {
            let _guard = g.m.lock().unwrap();
            g.cv.notify_all();
        }
    }

    /// Removes the registration of `w` (it was notified); returns whether it
    /// was still registered.
    pub(super) fn deregister_timed(w: &Arc<super::sync::Waiter>) -> bool {
        with(|c| {
            let before = c.timed.len();
            c.timed.retain(|t| !Arc::ptr_eq(&t.waiter, w));
            let removed = c.timed.len() != before;
            if removed {
                c.summary.timeouts_cancelled += 1;
            }
            removed
        })
    }

    fn timer_loop(gate: Arc<Gate>) {
        loop {
            {
                let mut g = gate.m.lock().unwrap();
                loop {
                    let (stop, pending) = with(|c| (c.stop, !c.timed.is_empty()));
                    if stop {
                        return;
                    }
                    if pending {
                        break;
                    }
                    g = gate.cv.wait(g).unwrap();
                }
            }
            fire_one();
        }
    }

    /// Expires one registered waiter: the one with the earliest deadline
    /// (ties broken by a scheduler-recorded random choice).
    fn fire_one() {
        use shuttle::rand::Rng;
        let n_candidates = with(|c| {
            let min = c.timed.iter().map(|t| t.deadline).min();
            match min {
                None => 0,
                Some(m) => c.timed.iter().filter(|t| t.deadline == m).count(),
            }
        });
        if n_candidates == 0 {
            return;
        }
        let pick = if n_candidates > 1 {
            shuttle::rand::thread_rng().gen_range(0..n_candidates)
        } else {
            0
        };
        let chosen = with(|c| {
            let min = c.timed.iter().map(|t| t.deadline).min()?;
            let idx = c
                .timed
                .iter()
                .enumerate()
                .filter(|(_, t)| t.deadline == min)
                .map(|(i, _)| i)
                .nth(pick)
                .or_else(|| c.timed.iter().position(|t| t.deadline == min))?;
            Some(c.timed.remove(idx))
        });
        let Some(t) = chosen else { return };
        // Take the waiter off its condition variable's queue.  If it is no
        // longer there it has been notified already: no timeout.
        let was_queued = {
            let mut q = t.cv.queue.lock().unwrap();
            match q.iter().position(|w| Arc::ptr_eq(w, &t.waiter)) {
                Some(i) => {
                    q.remove(i);
                    true
                }
                None => false,
            }
        };
        if !was_queued {
            with(|c| c.summary.timeouts_cancelled += 1);
            return;
        }
        let probe = with(|c| {
            if c.now < t.deadline {
                c.summary.clock_advanced_ns += (t.deadline - c.now).as_nanos();
                c.now = t.deadline;
            }
            c.summary.timeouts_fired += 1;
            c.probe.clone()
        });
        if let Some(p) = probe {
            if p() {
                with(|c| c.summary.timeouts_fired_probe += 1);
            }
        }
        t.waiter.wake(true);
    }

    /// Decides whether the next spawn through the shim fails.
    pub(super) fn next_spawn_fails() -> bool {
        with(|c| {
            let idx = c.summary.spawns;
            c.summary.spawns += 1;
            if c.fail_spawns.contains(&idx) {
                c.summary.spawns_failed += 1;
                true
            } else {
                false
            }
        })
    }
}

////////////////////////////////////////////////////////////////////////
// std::sync                                                          //
////////////////////////////////////////////////////////////////////////

pub mod sync {
    use super::*;
    use std::fmt;
    use std::ops::{Deref, DerefMut};

    pub use shuttle::sync::{atomic, mpsc, Barrier, Once, RwLock, RwLockReadGuard, RwLockWriteGuard};
    pub use std::sync::{Arc, LockResult, PoisonError, TryLockError, TryLockResult, Weak};

    /// `std::sync::Mutex`.  Mutual exclusion (and every scheduling point) comes
    /// from a shuttle mutex used as a token; the data lives in an `UnsafeCell`
    /// guarded by that token.  The guard remembers its mutex so that the shim's
    /// `Condvar` can re-acquire it.
    ///
    /// *Teardown.*  When shuttle abandons an execution (a task panicked, a
    /// deadlock was reported, the step bound was hit) it force-unwinds the
    /// suspended coroutines, which runs quandary's destructors
    /// (`OneshotHandle::drop` etc.); these lock mutexes, notify, even spawn.
    /// Calling into shuttle at that point panics inside a destructor and aborts
    /// the process.  During unwinding (`std::thread::panicking()`) every shim
    /// operation therefore bypasses shuttle: `lock` hands out a guard without the
    /// token (the execution's result is discarded anyway and the coroutines are
    /// unwound one after the other on one OS thread), waits return at once,
    /// notifications and spawns do nothing.
    pub struct Mutex<T: ?Sized> {
        token: shuttle::sync::Mutex<()>,
        data: std::cell::UnsafeCell<T>,
    }

    // SAFETY: access to `data` is serialised by `token` (or happens during the
    // sequential teardown described above).
    unsafe impl<T: ?Sized + Send> Send for Mutex<T> {}
    unsafe impl<T: ?Sized + Send> Sync for Mutex<T> {}

    pub struct MutexGuard<'a, T: ?Sized + 'a> {
        mutex: &'a Mutex<T>,
        token: Option<shuttle::sync::MutexGuard<'a, ()>>,
    }

    /// True while unwinding, and also when no task is current: shuttle drops the
    /// closures of tasks that never started (they own quandary's thread
    /// handles) from its clean-up code, outside any task.
    pub(super) fn tearing_down() -> bool {
        std::thread::panicking()
            || shuttle_engine::runtime::execution::ExecutionState::try_with(|s| s.try_current().is_none()).unwrap_or(true)
    }

    impl<T> Mutex<T> {
        pub fn new(t: T) -> Self {
            Mutex {
                token: shuttle::sync::Mutex::new(()),
                data: std::cell::UnsafeCell::new(t),
            }
        }

        pub fn into_inner(self) -> LockResult<T> {
            Ok(self.data.into_inner())
        }
    }

    impl<T: ?Sized> Mutex<T> {
        pub fn lock(&self) -> LockResult<MutexGuard<'_, T>> {
            if tearing_down() {
                return Ok(MutexGuard { mutex: self, token: None });
            }
            let token = match self.token.lock() {
                Ok(g) => g,
                Err(p) => p.into_inner(),
            };
            Ok(MutexGuard { mutex: self, token: Some(token) })
        }

        pub fn try_lock(&self) -> TryLockResult<MutexGuard<'_, T>> {
            if tearing_down() {
                return Ok(MutexGuard { mutex: self, token: None });
            }
            match self.token.try_lock() {
                Ok(g) => Ok(MutexGuard { mutex: self, token: Some(g) }),
                Err(TryLockError::WouldBlock) => Err(TryLockError::WouldBlock),
                Err(TryLockError::Poisoned(p)) => Ok(MutexGuard { mutex: self, token: Some(p.into_inner()) }),
            }
        }

        pub fn get_mut(&mut self) -> LockResult<&mut T> {
            Ok(self.data.get_mut())
        }
    }

    impl<T: Default> Default for Mutex<T> {
        fn default() -> Self {
            Mutex::new(T::default())
        }
    }

    impl<T> From<T> for Mutex<T> {
        fn from(t: T) -> Self {
            Mutex::new(t)
        }
    }

    impl<T: ?Sized> fmt::Debug for Mutex<T> {
        fn fmt(&self, f: &mut fmt::Formatter<'_>) -> fmt::Result {
            f.write_str("Mutex { .. }")
        }
    }

    impl<T: ?Sized> Deref for MutexGuard<'_, T> {
        type Target = T;
        fn deref(&self) -> &T {
            // SAFETY: see `Mutex`
            unsafe { &*self.mutex.data.get() }
        }
    }

    impl<T: ?Sized> DerefMut for MutexGuard<'_, T> {
        fn deref_mut(&mut self) -> &mut T {
            // SAFETY: see `Mutex`
            unsafe { &mut *self.mutex.data.get() }
        }
    }

    impl<T: ?Sized + fmt::Debug> fmt::Debug for MutexGuard<'_, T> {
        fn fmt(&self, f: &mut fmt::Formatter<'_>) -> fmt::Result {
            fmt::Debug::fmt(&**self, f)
        }
    }

    /// One blocked `wait`/`wait_timeout` call.
    pub struct Waiter {
        state: shuttle::sync::Mutex<WaiterState>,
        cv: shuttle::sync::Condvar,
    }

    #[derive(Default)]
    struct WaiterState {
        woken: bool,
        timed_out: bool,
    }

    impl Waiter {
        fn new() -> Arc<Waiter> {
            Arc::new(Waiter {
                state: shuttle::sync::Mutex::new(WaiterState::default()),
                cv: shuttle::sync::Condvar::new(),
            })
        }

        /// Blocks until woken; returns whether the wake-up was a timeout.
        fn park(&self) -> bool {
            let mut g = self.state.lock().unwrap();
            while !g.woken {
                g = self.cv.wait(g).unwrap();
            }
            g.timed_out
        }

        pub(super) fn wake(&self, timed_out: bool) {
            let mut g = self.state.lock().unwrap();
            g.woken = true;
            g.timed_out = timed_out;
            drop(g);
            self.cv.notify_one();
        }
    }

    pub struct CvInner {
        pub(super) queue: std::sync::Mutex<VecDeque<Arc<Waiter>>>,
    }

    /// `std::sync::Condvar` with timeouts that fire (see the module docs).
    pub struct Condvar {
        inner: Arc<CvInner>,
    }

    #[derive(Clone, Copy, Debug, PartialEq, Eq)]
    pub struct WaitTimeoutResult(bool);

    impl WaitTimeoutResult {
        pub fn timed_out(&self) -> bool {
            self.0
        }
    }

    impl Default for Condvar {
        fn default() -> Self {
            Condvar::new()
        }
    }

    impl fmt::Debug for Condvar {
        fn fmt(&self, f: &mut fmt::Formatter<'_>) -> fmt::Result {
            f.write_str("Condvar { .. }")
        }
    }

    impl Condvar {
        pub fn new() -> Self {
            Condvar {
                inner: Arc::new(CvInner {
                    queue: std::sync::Mutex::new(VecDeque::new()),
                }),
            }
        }

        fn enqueue(&self) -> Arc<Waiter> {
            let w = Waiter::new();
            self.inner.queue.lock().unwrap().push_back(w.clone());
            super::exec::with(|c| c.summary.waits += 1);
            w
        }

        pub fn wait<'a, T>(&self, guard: MutexGuard<'a, T>) -> LockResult<MutexGuard<'a, T>> {
            if tearing_down() {
                return Ok(guard);
            }
            // Queue first, then release the mutex: a notification issued by
            // whoever acquires the mutex next finds this waiter (atomic
            // "unlock and wait").
            let w = self.enqueue();
            let mutex = guard.mutex;
            drop(guard);
            w.park();
            mutex.lock()
        }

        pub fn wait_while<'a, T, F>(&self, mut guard: MutexGuard<'a, T>, mut condition: F) -> LockResult<MutexGuard<'a, T>>
        where
            F: FnMut(&mut T) -> bool,
        {
            while condition(&mut *guard) {
                guard = self.wait(guard)?;
            }
            Ok(guard)
        }

        pub fn wait_timeout<'a, T>(
            &self,
            guard: MutexGuard<'a, T>,
            dur: StdDuration,
        ) -> LockResult<(MutexGuard<'a, T>, WaitTimeoutResult)> {
            if tearing_down() {
                return Ok((guard, WaitTimeoutResult(true)));
            }
            let w = self.enqueue();
            let deadline = super::exec::with(|c| c.now.saturating_add(dur));
            let mutex = guard.mutex;
            super::exec::register_timed(super::exec::TimedWaiter {
                waiter: w.clone(),
                cv: self.inner.clone(),
                deadline,
            });
            drop(guard);
            let timed_out = w.park();
            if !timed_out {
                super::exec::deregister_timed(&w);
            }
            match mutex.lock() {
                Ok(g) => Ok((g, WaitTimeoutResult(timed_out))),
                Err(p) => Err(PoisonError::new((p.into_inner(), WaitTimeoutResult(timed_out)))),
            }
        }

        pub fn wait_timeout_while<'a, T, F>(
            &self,
            mut guard: MutexGuard<'a, T>,
            dur: StdDuration,
            mut condition: F,
        ) -> LockResult<(MutexGuard<'a, T>, WaitTimeoutResult)>
        where
            F: FnMut(&mut T) -> bool,
        {
            let deadline = super::time::Instant::now() + dur;
            loop {
                if !condition(&mut *guard) {
                    return Ok((guard, WaitTimeoutResult(false)));
                }
                let left = match deadline.checked_duration_since(super::time::Instant::now()) {
                    Some(l) if !l.is_zero() => l,
                    _ => return Ok((guard, WaitTimeoutResult(true))),
                };
                guard = self.wait_timeout(guard, left)?.0;
            }
        }

        pub fn notify_one(&self) {
            if tearing_down() {
                return;
            }
            // A scheduling point, as in shuttle's own Condvar.
            shuttle_engine::runtime::thread::switch();
            let w = self.inner.queue.lock().unwrap().pop_front();
            match w {
                Some(w) => {
                    super::exec::with(|c| c.summary.notifications_delivered += 1);
                    w.wake(false);
                }
                None => super::exec::with(|c| c.summary.notifications_to_nobody += 1),
            }
        }

        pub fn notify_all(&self) {
            if tearing_down() {
                return;
            }
            shuttle_engine::runtime::thread::switch();
            let ws: Vec<Arc<Waiter>> = self.inner.queue.lock().unwrap().drain(..).collect();
            if ws.is_empty() {
                super::exec::with(|c| c.summary.notifications_to_nobody += 1);
            }
            for w in ws {
                super::exec::with(|c| c.summary.notifications_delivered += 1);
                w.wake(false);
            }
        }
    }
}

////////////////////////////////////////////////////////////////////////
// std::thread                                                        //
////////////////////////////////////////////////////////////////////////

pub mod thread {
    pub use shuttle::thread::{park, scope, sleep, spawn, yield_now, JoinHandle};

    pub fn panicking() -> bool {
        std::thread::panicking()
    }

    #[derive(Clone, Copy, Debug, PartialEq, Eq, Hash)]
    pub struct ThreadId(u64);

    #[derive(Clone, Debug)]
    pub struct Thread {
        id: ThreadId,
        name: Option<String>,
    }

    impl Thread {
        pub fn id(&self) -> ThreadId {
            self.id
        }

        pub fn name(&self) -> Option<&str> {
            self.name.as_deref()
        }
    }

    /// `std::thread::current()`.  During teardown (see `sync::Mutex`) shuttle
    /// cannot be asked; a placeholder that equals no real thread is returned.
    pub fn current() -> Thread {
        if super::sync::tearing_down() {
            return Thread {
                id: ThreadId(u64::MAX),
                name: None,
            };
        }
        let t = shuttle::thread::current();
        let id: usize = shuttle_engine::current::me().into();
        Thread {
            id: ThreadId(id as u64),
            name: t.name().map(|s| s.to_string()),
        }
    }

    /// `std::thread::Builder`; a spawn can be made to fail (see `exec::begin`).
    #[derive(Debug, Default)]
    pub struct Builder {
        inner: shuttle::thread::Builder,
    }

    impl Builder {
        pub fn new() -> Self {
            Builder {
                inner: shuttle::thread::Builder::new(),
            }
        }

        pub fn name(self, name: String) -> Self {
            Builder {
                inner: self.inner.name(name),
            }
        }

        pub fn stack_size(self, size: usize) -> Self {
            Builder {
                inner: self.inner.stack_size(size),
            }
        }

        #[track_caller]
        pub fn spawn<F, T>(self, f: F) -> std::io::Result<JoinHandle<T>>
        where
            F: FnOnce() -> T,
            F: Send + 'static,
            T: Send + 'static,
        {
            if super::sync::tearing_down() {
                return Err(std::io::Error::new(
                    std::io::ErrorKind::Other,
                    "vshim: the execution is being torn down",
                ));
            }
            if super::exec::next_spawn_fails() {
                return Err(std::io::Error::new(
                    std::io::ErrorKind::WouldBlock,
                    "vshim: injected thread-spawn failure",
                ));
            }
            self.inner.spawn(f)
        }
    }
}

////////////////////////////////////////////////////////////////////////
// std::time                                                          //
////////////////////////////////////////////////////////////////////////

pub mod time {
    use std::ops::{Add, AddAssign, Sub, SubAssign};

    pub use std::time::{Duration, SystemTime, SystemTimeError, UNIX_EPOCH};

    /// `std::time::Instant` over the execution's logical clock.
    #[derive(Clone, Copy, Debug, PartialEq, Eq, PartialOrd, Ord, Hash)]
    pub struct Instant(Duration);

    impl Instant {
        pub fn now() -> Instant {
            Instant(super::exec::with(|c| c.now))
        }

        pub fn duration_since(&self, earlier: Instant) -> Duration {
            self.0.saturating_sub(earlier.0)
        }

        pub fn checked_duration_since(&self, earlier: Instant) -> Option<Duration> {
            self.0.checked_sub(earlier.0)
        }

        pub fn saturating_duration_since(&self, earlier: Instant) -> Duration {
            self.0.saturating_sub(earlier.0)
        }

        pub fn elapsed(&self) -> Duration {
            Instant::now().duration_since(*self)
        }

        pub fn checked_add(&self, d: Duration) -> Option<Instant> {
            self.0.checked_add(d).map(Instant)
        }

        pub fn checked_sub(&self, d: Duration) -> Option<Instant> {
            self.0.checked_sub(d).map(Instant)
        }
    }

    impl Add<Duration> for Instant {
        type Output = Instant;
        fn add(self, d: Duration) -> Instant {
            self.checked_add(d).expect("overflow when adding duration to instant")
        }
    }

    impl AddAssign<Duration> for Instant {
        fn add_assign(&mut self, d: Duration) {
            *self = *self + d;
        }
    }

    impl Sub<Duration> for Instant {
        type Output = Instant;
        fn sub(self, d: Duration) -> Instant {
            self.checked_sub(d).expect("overflow when subtracting duration from instant")
        }
    }

    impl SubAssign<Duration> for Instant {
        fn sub_assign(&mut self, d: Duration) {
            *self = *self - d;
        }
    }

    impl Sub<Instant> for Instant {
        type Output = Duration;
        fn sub(self, other: Instant) -> Duration {
            self.duration_since(other)
        }
    }
}
